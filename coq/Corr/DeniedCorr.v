(* T2 correspondence for C16: every observed step of the real denied-key table (hook H3) must be
   a step the model allows (trace acceptance: the survivor choice of an eviction and the order of
   ties in the report are the implementation's), and label escaping must equal the model's. *)
From Coq Require Import ZArith NArith List Bool.
Import ListNotations.
Require Import TC.Generated.Consts TC.Base.Corr TC.Base.Map TC.Resp.Utf8 TC.Server.Denied TC.Server.Escape.
Open Scope Z_scope.

Definition opt_eqb (a b : option Z) : bool := opt_Z_eqb a b.

(* tables as maps: same bindings *)
Definition tbl_sub (a b : tbl) : bool := forallb (fun p => opt_eqb (lookup bytes_eqb b (fst p)) (Some (snd p))) a.
Definition tbl_equiv (a b : tbl) : bool := tbl_sub a b && tbl_sub b a && (length a =? length b)%nat.

Fixpoint keys_distinct (t : tbl) : bool :=
  match t with [] => true | (k, _) :: r => negb (existsb (fun p => bytes_eqb k (fst p)) r) && keys_distinct r end.

Definition cleanup_ok (mx : nat) (t t' : tbl) : bool :=
  keys_distinct t' && (length t' =? mx)%nat && tbl_sub t' t &&
  (* no evicted entry has a larger count than a kept one *)
  forallb (fun kept => forallb (fun any => match lookup bytes_eqb t' (fst any) with
                                            | Some _ => true | None => snd any <=? snd kept end) t) t'.

Definition step_ok (mx : nat) (prev : tbl) (key : bytes) (next : tbl) : bool :=
  if short key then
    let mid := incr prev key in
    if (length mid <=? mx * factor)%nat then tbl_equiv mid next else cleanup_ok mx mid next
  else tbl_equiv prev next.

Fixpoint desc_sorted_b (r : list (bytes * Z)) : bool :=
  match r with a :: ((b :: _) as r') => (snd b <=? snd a) && desc_sorted_b r' | _ => true end.

Definition top_ok (mx : nat) (t : tbl) (r : list (bytes * Z)) : bool :=
  desc_sorted_b r && (length r =? Nat.min mx (length t))%nat && keys_distinct r && tbl_sub r t &&
  forallb (fun kept => forallb (fun any => match lookup bytes_eqb r (fst any) with
                                            | Some _ => true | None => snd any <=? snd kept end) t) r.

Record dobs := { d_key : bytes; d_prev : tbl; d_next : tbl; d_top : list (bytes * Z) }.
Definition denied_case_ok (c : nat * list dobs) : bool :=
  forallb (fun o => keys_distinct (d_prev o) && step_ok (fst c) (d_prev o) (d_key o) (d_next o) && top_ok (fst c) (d_next o) (d_top o)) (snd c).

Definition escape_case_ok (c : list N * list N) : bool := list_eqb N.eqb (escape (fst c)) (snd c).
