(* T2 correspondence for the RESP codec (C13, C14). *)
From Coq Require Import ZArith NArith List Bool.
Import ListNotations.
Require Import TC.Generated.Consts TC.Base.Corr TC.Resp.Utf8 TC.Resp.Decimal TC.Resp.Parse.
Open Scope N_scope.

(* what the harness observed from RespParser::parse *)
Inductive iout := IOk (v : value) (consumed : N) | IMore | IErr | IPanic.

Definition out_matches (o : outcome) (i : iout) : bool :=
  match o, i with
  | POk v c, IOk v' c' => value_eqb v v' && (N.of_nat c =? c')
  | PNeedMore, IMore => true
  | PErr _, IErr => true
  | PPanic, IPanic => true
  | _, _ => false
  end.

(* a fresh parser on one buffer *)
Definition resp_case_ok (c : bytes * iout) : bool := out_matches (parse_top (fst c)) (snd c).

(* one parser instance fed a sequence of buffers: the depth field is threaded *)
Fixpoint session_from (depth : nat) (steps : list (bytes * iout)) : bool :=
  match steps with
  | [] => true
  | (d, i) :: r =>
      let od := parse_with depth d in
      out_matches (fst od) i && session_from (snd od) r
  end.
Definition session_ok (steps : list (bytes * iout)) : bool := session_from 0 steps.

(* serializer: value, the bytes the real serializer produced *)
Definition ser_case_ok (c : value * bytes) : bool := bytes_eqb (serialize (fst c)) (snd c).

(* exhaustive enumeration over the protocol alphabet, canonical order = the harness's:
   all strings of a given length, last position varying fastest *)
Definition alphabet : bytes := [43; 45; 58; 36; 42; 48; 49; 57; 13; 10; 97; 195; 169; 255].
Fixpoint all_strings (len : nat) : list bytes :=
  match len with
  | O => [[]]
  | S n => flat_map (fun a => map (fun s => a :: s) (all_strings n)) alphabet
  end.
(* codes: 0 = need more, 1 = error, 2 = ok (details in [oks]), 3 = panic *)
Definition code_of (o : outcome) : N :=
  match o with PNeedMore => 0 | PErr _ => 1 | POk _ _ => 2 | PPanic => 3 | POutOfFuel => 4 end.
Definition enum_codes_ok (len : nat) (codes : list N) : list N :=
  mismatches (fun p => code_of (parse_top (fst p)) =? snd p) (combine (all_strings len) codes).
Definition enum_len_ok (len : nat) (codes : list N) : bool := (length (all_strings len) =? length codes)%nat.
Definition enum_oks_ok (len : nat) (oks : list (N * value * N)) : list N :=
  let strs := all_strings len in
  mismatches (fun t => match nth_error strs (N.to_nat (fst (fst t))) with
                       | Some d => out_matches (parse_top d) (IOk (snd (fst t)) (snd t))
                       | None => false end) oks.
