(* T2 correspondence for the actor (C09-C11): the harness drives the REAL actor loop and REAL
   handle futures under an explicit schedule, finds a linearization order against a real
   sequential limiter, and this file re-plays that order on the MODEL: the abstract limiter
   al_run (what Server/ActorLib instantiates the LTS with, modulo the C06 refinement) with the
   Flocq rate model; the whole-second answers of the wire type ThrottleResponse must agree. *)
From Coq Require Import ZArith List Bool.
Import ListNotations.
Require Import TC.Base.Corr TC.Store.AbsMap TC.Float.Rate64 TC.Limiter.KeyStep TC.Limiter.Limiter
  TC.Limiter.Abstract TC.Corr.LimCorr.
Open Scope Z_scope.

(* types.rs / actor.rs: reset_after and retry_after are Duration::as_secs() *)
Definition secs_outcome (o : outcome) : outcome :=
  match o with
  | Ok r => Ok (mkresp (allowed r) (limit r) (remaining r) (reset_after r / 1000000000) (retry_after r / 1000000000))
  | x => x
  end.

Definition opt_out_ok (m : outcome) (o : option outcome) : bool :=
  match o with None => true | Some x => outcome_eqb (secs_outcome m) x end.

Fixpoint all2 {A B} (f : A -> B -> bool) (a : list A) (b : list B) : bool :=
  match a, b with
  | [], [] => true
  | x :: a', y :: b' => f x y && all2 f a' b'
  | _, _ => false
  end.

(* c: the linearization order the harness found: request, answer seen by its client (None: abandoned) *)
Definition actor_case_ok (c : list (reqZ * option outcome)) : bool :=
  all2 opt_out_ok (snd (al_run Z Z.eqb from_count_and_period (fun _ => None) (map fst c))) (map snd c).
