(* C04 - Denied, zero-quantity and invalid requests consume nothing. *)
From Coq Require Import ZArith Bool List.
Import ListNotations.
Require Import TC.Base.Map TC.Store.Stores TC.Store.AbsMap TC.Store.Refine TC.Limiter.KeyStep
  TC.Limiter.Limiter TC.Limiter.Abstract TC.Limiter.Project TC.Limiter.NoEffect.
Open Scope Z_scope.

(* rejected requests return the documented error and the store - table AND scheduling state -
   exactly as it was: no stored state is created, no store operation is issued *)
Theorem C04_invalid_touches_nothing :
  forall (K : Type) (keqb : K -> K -> bool) (rate : Z -> Z -> Z) (st : store K) (orc : bool) (rq : req K),
  r_q rq < 0 \/ r_B rq <= 0 \/ r_count rq <= 0 \/ r_period rq <= 0 ->
  fst (rate_limit K keqb rate st orc rq) = st /\
  snd (rate_limit K keqb rate st orc rq) = (if r_q rq <? 0 then ErrNegativeQuantity else ErrInvalidRateLimit).
Proof. exact invalid_touches_nothing. Qed.
Print Assumptions C04_invalid_touches_nothing.

(* a zero-quantity request never writes, on any store in any state, under any limits *)
Theorem C04_zero_quantity_touches_nothing :
  forall (K : Type) (keqb : K -> K -> bool) (rate : Z -> Z -> Z) (st : store K) (orc : bool) (rq : req K),
  r_q rq = 0 -> fst (rate_limit K keqb rate st orc rq) = st.
Proof. exact zero_quantity_touches_nothing. Qed.
Print Assumptions C04_zero_quantity_touches_nothing.

(* a denied request leaves the store exactly as it was (any reachable store: related to some
   abstract map), under any limits *)
Theorem C04_denied_touches_nothing :
  forall (K : Type) (keqb : K -> K -> bool), (forall a b, reflect (a = b) (keqb a b)) ->
  forall (rate : Z -> Z -> Z) (t0 : Z) (st : store K) (orc : bool) (rq : req K) (m : absmap K) (r : resp),
  R K keqb t0 (sdata K st) m -> t0 <= r_now rq ->
  snd (rate_limit K keqb rate st orc rq) = Ok r -> allowed r = false ->
  fst (rate_limit K keqb rate st orc rq) = st.
Proof. exact denied_touches_nothing. Qed.
Print Assumptions C04_denied_touches_nothing.

(* deletion: take ANY history (any keys, any limits - also varying on one key - valid or not) with
   non-decreasing timestamps in which some requests are flagged as "inserted"; if each flagged
   request was rejected, denied or had quantity 0, then the unflagged requests receive exactly the
   responses they receive when the flagged ones are deleted - on any two built-in stores in any
   configuration and with any oracle streams *)
Theorem C04_noeffect_deletion :
  forall (K : Type) (keqb : K -> K -> bool), (forall a b, reflect (a = b) (keqb a b)) ->
  forall (rate : Z -> Z -> Z) (st1 st2 : store K) (h : list (bool * (bool * req K))) (orcs2 : list bool) (t0 : Z),
  sdata K st1 = [] -> sdata K st2 = [] ->
  let ext := map snd h in
  let flagged := map (fun p => (fst p, snd (snd p))) h in
  nondec_from t0 (times K (map snd ext)) ->
  inserted_no_effect K flagged (snd (lrun K keqb rate st1 ext)) = true ->
  length orcs2 = length (base_of K flagged) ->
  base_outs K flagged (snd (lrun K keqb rate st1 ext)) =
  snd (lrun K keqb rate st2 (combine orcs2 (base_of K flagged))).
Proof. exact noeffect_deletion. Qed.
Print Assumptions C04_noeffect_deletion.
