(* C10 - Every request is answered exactly once, in order, even under back-pressure. *)
From Coq Require Import ZArith List Bool.
Import ListNotations.
Require Import TC.Resp.Utf8 TC.Resp.Parse TC.Resp.Conn TC.Resp.ConnProofs TC.Server.Actor TC.Server.Linear TC.Server.Progress.

(* at most once: no request is queued or processed twice; no client holds two answers for one request *)
Theorem C10_at_most_once :
  forall (L Rq Rs : Type) (lstep : L -> Rq -> L * Rs) (panics : L -> Rq -> bool) (prog : nat -> list Rq)
         (nclients cap : nat) (l0 : L) (s : state L Rs),
  reach L Rq Rs lstep panics prog nclients cap l0 s ->
  NoDup (log _ _ s ++ queue _ _ s) /\
  forall i c, nth_error (clients _ _ s) i = Some c -> NoDup (map fst (got _ c)).
Proof. exact at_most_once. Qed.
Print Assumptions C10_at_most_once.

(* no deadlock, for every queue capacity >= 1: while some client still has something to do, a
   transition other than abandoning a request is enabled (a full queue enables the actor) *)
Theorem C10_deadlock_free :
  forall (L Rq Rs : Type) (lstep : L -> Rq -> L * Rs) (panics : L -> Rq -> bool) (prog : nat -> list Rq)
         (nclients cap : nat) (l0 : L), (1 <= cap)%nat -> forall (s : state L Rs),
  reach L Rq Rs lstep panics prog nclients cap l0 s ->
  (forall s0 rq, reach L Rq Rs lstep panics prog nclients cap l0 s0 -> panics (lim _ _ s0) rq = false) ->
  (exists i c, nth_error (clients _ _ s) i = Some c /\ (ctl _ c <> Idle \/ (next _ c < length (prog i))%nat)) ->
  exists lb s', step L Rq Rs lstep panics prog cap s lb s' /\ progress_label lb = true.
Proof. exact deadlock_free. Qed.
Print Assumptions C10_deadlock_free.

(* termination: a non-negative measure strictly decreases on every transition (other than the
   actor's death), so every run is finite; with C10_deadlock_free it ends with all clients done *)
Theorem C10_measure_decreases :
  forall (L Rq Rs : Type) (lstep : L -> Rq -> L * Rs) (panics : L -> Rq -> bool) (prog : nat -> list Rq)
         (cap : nat) (s : state L Rs) (lb : label) (s' : state L Rs),
  step L Rq Rs lstep panics prog cap s lb s' -> lb <> LPanic ->
  (measure L Rq Rs prog s' < measure L Rq Rs prog s)%Z.
Proof. exact measure_decreases. Qed.
Print Assumptions C10_measure_decreases.

Theorem C10_measure_nonneg :
  forall (L Rq Rs : Type) (lstep : L -> Rq -> L * Rs) (panics : L -> Rq -> bool) (prog : nat -> list Rq)
         (nclients cap : nat) (l0 : L) (s : state L Rs),
  reach L Rq Rs lstep panics prog nclients cap l0 s -> (0 <= measure L Rq Rs prog s)%Z.
Proof. intros L Rq Rs lstep panics prog nclients cap l0 s Hr. eapply wsum_nonneg. eapply (reach_inv2 L Rq Rs lstep panics prog nclients cap l0). exact Hr. Qed.
Print Assumptions C10_measure_nonneg.

(* every request a client has moved past was answered (exactly once, by C10_at_most_once) or was
   abandoned by that client itself *)
Theorem C10_answered_or_abandoned :
  forall (L Rq Rs : Type) (lstep : L -> Rq -> L * Rs) (panics : L -> Rq -> bool) (prog : nat -> list Rq)
         (nclients cap : nat) (l0 : L) (s : state L Rs) (i : nat) (c : client Rs) (idx : nat),
  reach L Rq Rs lstep panics prog nclients cap l0 s -> nth_error (clients _ _ s) i = Some c -> (idx < next _ c)%nat ->
  (exists r, In (idx, r) (got _ c)) \/ slots _ _ s (i, idx) = SDropped _.
Proof. exact answered_or_abandoned. Qed.
Print Assumptions C10_answered_or_abandoned.

(* abandoning a request changes neither the limiter, nor the queue (a request already queued stays
   queued and is charged), nor the processing order, nor any other client's state or reply slot *)
Theorem C10_cancel_isolated :
  forall (L Rq Rs : Type) (lstep : L -> Rq -> L * Rs) (panics : L -> Rq -> bool) (prog : nat -> list Rq)
         (cap : nat) (s : state L Rs) (lb : label) (s' : state L Rs),
  step L Rq Rs lstep panics prog cap s lb s' -> (lb = LCancelBefore \/ lb = LCancelAfter) ->
  lim _ _ s' = lim _ _ s /\ queue _ _ s' = queue _ _ s /\ log _ _ s' = log _ _ s /\
  exists i c, nth_error (clients _ _ s) i = Some c /\
    (forall j, j <> i -> nth_error (clients _ _ s') j = nth_error (clients _ _ s) j) /\
    (forall k, k <> (i, next _ c) -> slots _ _ s' k = slots _ _ s k).
Proof. exact cancel_isolated. Qed.
Print Assumptions C10_cancel_isolated.

(* RESP connection: the decoded command sequence - hence, the handler being applied to the
   commands one after the other, the sequence of replies written - is the same for every splitting
   of the byte stream into packets: exactly one reply per command, in command order *)
Theorem C10_pipeline_order :
  forall (isq : value -> bool) (A : Type) (handle : value -> A) (cs1 cs2 : list bytes),
  concat cs1 = concat cs2 ->
  map handle (fst (conn_run isq conn_init cs1)) = map handle (fst (conn_run isq conn_init cs2)).
Proof. intros isq A handle cs1 cs2 H. destruct (two_splittings_agree_real isq cs1 cs2 H) as [E _]. rewrite E. reflexivity. Qed.
Print Assumptions C10_pipeline_order.
