(* C01 - Rate conformance: no window ever admits more than burst + rate x length. *)
From Coq Require Import ZArith Bool List.
Import ListNotations.
Require Import TC.Base.Map TC.Store.Stores TC.Store.Refine TC.Limiter.KeyStep TC.Limiter.KeyLemmas
  TC.Limiter.Bucket TC.Limiter.Window TC.Limiter.Limiter TC.Limiter.Project TC.Limiter.Decide TC.Limiter.Top.
Open Scope Z_scope.

(* For every key type, rate function, built-in store in any configuration (empty table), oracle
   stream, multi-key history with non-decreasing timestamps in 1970..2100 in which key k is used
   with fixed limits in D and non-negative quantities (other keys: arbitrary), and every window
   [t1, t2]: with E the emission interval,
        E * (admitted quantity of key k with timestamps in [t1,t2] - B) <= t2 - t1
   i.e. admitted <= B + (t2 - t1) / E. *)
Theorem C01_window_bound :
  forall (K : Type) (keqb : K -> K -> bool), (forall a b, reflect (a = b) (keqb a b)) ->
  forall (rate : Z -> Z -> Z) (st0 : store K) (h : list (bool * req K)) (k : K) (B count period t0 t1 t2 : Z),
  fixed_key_history K keqb rate st0 h k B count period t0 -> key_nonneg K keqb k (map snd h) -> t1 <= t2 ->
  rate count period * (admitted_qty K keqb k (map snd h) (snd (lrun K keqb rate st0 h)) t1 t2 - B) <= t2 - t1.
Proof. exact lim_window. Qed.
Print Assumptions C01_window_bound.

(* a single instant never admits more than the burst, whatever idle gap, expiry or cleanup preceded it *)
Theorem C01_instant_never_exceeds_burst :
  forall (K : Type) (keqb : K -> K -> bool), (forall a b, reflect (a = b) (keqb a b)) ->
  forall (rate : Z -> Z -> Z) (st0 : store K) (h : list (bool * req K)) (k : K) (B count period t0 t : Z),
  fixed_key_history K keqb rate st0 h k B count period t0 -> key_nonneg K keqb k (map snd h) ->
  admitted_qty K keqb k (map snd h) (snd (lrun K keqb rate st0 h)) t t <= B.
Proof. exact lim_instant. Qed.
Print Assumptions C01_instant_never_exceeds_burst.

(* the bound for the ideal bucket itself, from ANY bucket state (not only a full one) *)
Theorem C01_bucket_window :
  forall (E B : Z), 0 <= E -> 0 <= E * B ->
  forall (l : list (Z * Z)) (b : bucket) (t1 t2 : Z),
  bwf E B b -> t1 <= t2 -> ksorted (last b) l ->
  E * adm E B b l t1 t2 <= E * B + (t2 - t1).
Proof. exact adm_window. Qed.
Print Assumptions C01_bucket_window.
