(* C17 - Clock regression is tolerated: bounded cost, never a crash.
   Timestamps in ARBITRARY order.  The full property (window bound with slack J for every history)
   is false of the code: C17_refuted_by_stale_forget is the witness (known finding, class
   "stale-forget": an entry is physically reclaimed by a sweep triggered at a later timestamp and a
   request carrying an earlier timestamp then finds the key fresh).  Proved instead: totality for
   any order; budget monotonicity for every physical key state; and the window bound - even
   without the +J slack - for every execution that contains no stale-forget event. *)
From Coq Require Import ZArith Bool List.
Import ListNotations.
Require Import TC.Base.Map TC.Store.Stores TC.Store.AbsMap TC.Store.Refine TC.Limiter.Arith TC.Limiter.KeyStep TC.Limiter.KeyLemmas
  TC.Limiter.Limiter TC.Limiter.Abstract TC.Limiter.Project TC.Limiter.Window TC.Limiter.Decide TC.Limiter.Total TC.Limiter.Top TC.Limiter.Regress TC.Store.NoLoss.
Open Scope Z_scope.

(* no call panics or errors, whatever the order of the timestamps (1970..2200), for every store
   whose table is a map (preserved by every call: C17_table_stays_a_map) *)
Theorem C17_total_any_order :
  forall (K : Type) (keqb : K -> K -> bool), (forall a b, reflect (a = b) (keqb a b)) ->
  forall (rate : Z -> Z -> Z), (forall c p, 0 <= rate c p) ->
  forall (st : store K) (orc : bool) (rq : req K),
  uniq (sdata K st) -> 0 <= r_now rq <= t2200 -> req_in_i64 K rq ->
  if r_q rq <? 0 then snd (rate_limit K keqb rate st orc rq) = ErrNegativeQuantity
  else if (r_B rq <=? 0) || (r_count rq <=? 0) || (r_period rq <=? 0)
       then snd (rate_limit K keqb rate st orc rq) = ErrInvalidRateLimit
  else exists r, snd (rate_limit K keqb rate st orc rq) = Ok r /\
       limit r = r_B rq /\ 0 <= remaining r <= r_B rq /\ (retry_after r = 0 <-> allowed r = true).
Proof. exact total_any_order. Qed.
Print Assumptions C17_total_any_order.

Theorem C17_table_stays_a_map :
  forall (K : Type) (keqb : K -> K -> bool), (forall a b, reflect (a = b) (keqb a b)) ->
  forall (rate : Z -> Z -> Z) (h : list (bool * req K)) (st : store K),
  uniq (sdata K st) -> uniq (sdata K (fst (lrun K keqb rate st h))).
Proof. exact lrun_uniq. Qed.
Print Assumptions C17_table_stays_a_map.

(* a request carrying an earlier timestamp never sees more budget than it would at a later one:
   for every physical key state, whatever was or was not forgotten *)
Theorem C17_budget_not_increased :
  forall (E B : Z), inD E B -> forall (s : kstate) (M0 q t M : Z),
  Inv E B s M0 -> time_ok M0 -> time_ok t -> time_ok M -> 0 <= q -> t <= M ->
  allowed (snd (kstep E B s q t)) = true -> allowed (snd (kstep E B s q M)) = true.
Proof. exact budget_not_increased. Qed.
Print Assumptions C17_budget_not_increased.

(* window bound for the concrete limiter under ANY timestamp order (times in 1970..2100), any
   store, any traffic on other keys, for a key with fixed limits in D - provided the execution
   contains no stale-forget event.  Holds without the +J slack, hence with it. *)
Theorem C17_window_bound_no_stale_forget :
  forall (K : Type) (keqb : K -> K -> bool), (forall a b, reflect (a = b) (keqb a b)) ->
  forall (rate : Z -> Z -> Z) (st0 : store K) (h : list (bool * req K)) (k : K) (B count period t1 t2 : Z),
  sdata K st0 = [] ->
  inD (rate count period) B -> 1 <= count -> 1 <= period ->
  times_ok K (map snd h) -> key_fixed K keqb k B count period (map snd h) -> key_nonneg K keqb k (map snd h) ->
  no_stale_forget K keqb rate st0 abs_empty h -> t1 <= t2 ->
  rate count period * (admitted_qty K keqb k (map snd h) (snd (lrun K keqb rate st0 h)) t1 t2 - B) <= t2 - t1.
Proof. exact lim_window_any_order. Qed.
Print Assumptions C17_window_bound_no_stale_forget.

(* an execution without stale-forget events answers exactly like the never-forgetting map *)
Theorem C17_no_forget_outcomes :
  forall (K : Type) (keqb : K -> K -> bool), (forall a b, reflect (a = b) (keqb a b)) ->
  forall (rate : Z -> Z -> Z) (h : list (bool * req K)) (st : store K) (m : absmap K),
  uniq (sdata K st) -> no_stale_forget K keqb rate st m h ->
  snd (lrun K keqb rate st h) = snd (al_run K keqb rate m (map snd h)).
Proof. exact no_forget_outcomes. Qed.
Print Assumptions C17_no_forget_outcomes.

(* the per-key bound for arbitrary timestamp order when state is never forgotten *)
Theorem C17_key_window_any_order :
  forall (E B : Z), inD E B -> forall (l : list (Z * Z)) (s : kstate) (M t1 t2 : Z),
  Inv E B s M -> time_ok M -> ktimes_ok l -> knonneg l -> t1 <= t2 ->
  E * kadm l (map is_allowed (snd (krun E B s l))) t1 t2 <= E * B + (t2 - t1).
Proof. exact krun_window_any_order. Qed.
Print Assumptions C17_key_window_any_order.

(* KNOWN FINDING (class stale-forget): the bound of the property fails on the model of the real
   code - victim key max_burst 2, 10 ms per token, ProbabilisticStore sweeping on every write,
   other keys stamped 20 ms ahead: 20 tokens admitted in a 9 ms window, J = 19 ms, bound 2 + 2.8 *)
Theorem C17_refuted_by_stale_forget :
  admitted_qty Z Z.eqb 0 (map snd w_hist) w_outs w_t0 (w_t0 + 9 * w_ms) = 20 /\
  w_J = 19 * w_ms /\
  ~ (w_E * (admitted_qty Z Z.eqb 0 (map snd w_hist) w_outs w_t0 (w_t0 + 9 * w_ms) - 2) <= 9 * w_ms + w_J).
Proof. exact stale_forget_refutes_bound. Qed.
Print Assumptions C17_refuted_by_stale_forget.

(* The class of the known finding is its CAUSE, not its symptom.  For every built-in store started with an empty table
   and every operation sequence in ANY timestamp order: if the last successful write of a key left (v, ex) - the ghost map
   of NoLoss.v, never cleaned, records it together with the latest timestamp [m] carried by a write made after it - and a
   lookup stamped now < ex finds nothing (a stale-forget event), then some LATER write carried a timestamp t >= ex > now.
   A live entry never disappears in any other way: the "lost" events the harness watches for are outside the behaviour of
   the modelled stores, so excusing only stale-forget events proper cannot hide a store that drops live entries. *)
Theorem C17_stale_forget_only_after_later_stamp :
  forall (K : Type) (keqb : K -> K -> bool), (forall a b, reflect (a = b) (keqb a b)) ->
  forall (s0 : store K) (ops : list (bool * sop K)) (k : K) (v ex : Z) (m : option Z) (now : Z),
  sdata K s0 = [] ->
  lookup keqb (snd (grun K keqb s0 [] ops)) k = Some (v, ex, m) ->
  now < ex ->
  d_get K keqb (sdata K (fst (srun K keqb s0 ops))) k now = None ->
  exists t, m = Some t /\ now < ex <= t.
Proof. exact no_silent_loss. Qed.
Print Assumptions C17_stale_forget_only_after_later_stamp.

(* and what a lookup does return is always the last successful write of that key, still alive at the lookup's stamp *)
Theorem C17_lookup_shows_last_write :
  forall (K : Type) (keqb : K -> K -> bool), (forall a b, reflect (a = b) (keqb a b)) ->
  forall (s0 : store K) (ops : list (bool * sop K)) (k : K) (v now : Z),
  sdata K s0 = [] ->
  d_get K keqb (sdata K (fst (srun K keqb s0 ops))) k now = Some v ->
  exists ex m, lookup keqb (snd (grun K keqb s0 [] ops)) k = Some (v, ex, m) /\ now < ex.
Proof. exact table_shows_last_write. Qed.
Print Assumptions C17_lookup_shows_last_write.

(* non-vacuity: the canonical two-write history produces exactly such an event, witnessed by the write stamped 110 *)
Theorem C17_stale_forget_event_exists :
  let ops := [(false, SetNX 1 7 2 100); (false, SetNX 2 8 50 110)] in
  let r := grun Z Z.eqb (periodic_new 0 0) [] ops in
  lookup Z.eqb (snd r) 1 = Some (7, 102, Some 110) /\
  d_get Z Z.eqb (sdata Z (fst (srun Z Z.eqb (periodic_new 0 0) ops))) 1 101 = None /\ 101 < 102 <= 110.
Proof. exact stale_forget_happens. Qed.
Print Assumptions C17_stale_forget_event_exists.
