(* C02 - No unjust denial: decisions equal the ideal GCRA, nothing starves a key. *)
From Coq Require Import ZArith Bool List.
Import ListNotations.
Require Import TC.Base.Map TC.Store.Stores TC.Store.Refine TC.Limiter.KeyStep TC.Limiter.KeyLemmas
  TC.Limiter.Bucket TC.Limiter.Sim TC.Limiter.Window TC.Limiter.Limiter TC.Limiter.Project TC.Limiter.Decide TC.Limiter.Top
  TC.Limiter.Fields.
Open Scope Z_scope.

(* Under the hypotheses of C01 (zero and over-burst quantities allowed), the decisions for key k
   are, at every step, those of an ideal token bucket of capacity B tokens refilled by one token
   per E ns (exact integer arithmetic), started full; and every such request gets a decision
   (no error). *)
Theorem C02_decisions_equal_bucket :
  forall (K : Type) (keqb : K -> K -> bool), (forall a b, reflect (a = b) (keqb a b)) ->
  forall (rate : Z -> Z -> Z) (st0 : store K) (h : list (bool * req K)) (k : K) (B count period t0 : Z),
  fixed_key_history K keqb rate st0 h k B count period t0 -> key_nonneg K keqb k (map snd h) ->
  map is_allowed (project K keqb k (map snd h) (snd (lrun K keqb rate st0 h))) =
  bdecide (rate count period) B (full (rate count period) B t0) (kreqs K keqb k (map snd h)) /\
  forallb is_ok (project K keqb k (map snd h) (snd (lrun K keqb rate st0 h))) = true.
Proof. exact lim_decisions. Qed.
Print Assumptions C02_decisions_equal_bucket.

(* one step, from any related pair (every reachable key state is related to a bucket) *)
Theorem C02_step_equals_bucket :
  forall (E B : Z), inD E B ->
  forall (s : kstate) (b : bucket) (q now : Z),
  rel E B s b -> last b <= now -> time_ok now -> 0 <= q ->
  allowed (snd (kstep E B s q now)) = snd (bstep E B b q now) /\
  rel E B (fst (kstep E B s q now)) (fst (bstep E B b q now)).
Proof. exact sim. Qed.
Print Assumptions C02_step_equals_bucket.

(* a never-seen key admits any quantity up to the burst *)
Theorem C02_fresh_admits_up_to_burst :
  forall (E B : Z), inD E B -> forall (q now : Z), time_ok now -> 0 <= q <= B ->
  allowed (snd (kstep E B None q now)) = true.
Proof. exact fresh_admits. Qed.
Print Assumptions C02_fresh_admits_up_to_burst.

(* no starvation: from every reachable key state (Inv s t: t = time of the last request seen),
   a request of quantity <= B issued at least B*E after that is admitted, whatever happened before
   (zero-quantity probes, denied and over-burst requests included) *)
Theorem C02_no_starvation :
  forall (E B : Z), inD E B -> forall (s : kstate) (t q now : Z),
  Inv E B s t -> t + E * B <= now -> time_ok now -> 0 <= q <= B ->
  allowed (snd (kstep E B s q now)) = true.
Proof. exact rested_admits. Qed.
Print Assumptions C02_no_starvation.
