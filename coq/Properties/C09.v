(* C09 - One shared limiter: concurrent clients on any protocol are linearizable.
   Proved on the actor LTS of Server/Actor.v for ANY sequential limiter [lstep] (instantiated by
   the library model), any number of clients with any programs, any queue capacity, and every
   interleaving of client and actor transitions, including abandoned requests. *)
From Coq Require Import ZArith List Bool.
Import ListNotations.
Require Import TC.Server.Actor TC.Server.Linear TC.Limiter.Bucket TC.Limiter.KeyStep TC.Limiter.BurstExact.

(* every response a client has received (and every response waiting in a reply slot) equals the
   answer its request gets when the processed requests are applied ONE AT A TIME to a single
   limiter in the order of the ghost log; the limiter's state is the sequential state after the log *)
Theorem C09_linearizable :
  forall (L Rq Rs : Type) (lstep : L -> Rq -> L * Rs) (panics : L -> Rq -> bool) (prog : nat -> list Rq)
         (nclients cap : nat) (l0 : L) (s : state L Rs),
  reach L Rq Rs lstep panics prog nclients cap l0 s ->
  lim _ _ s = seq_state L Rq Rs lstep l0 (reqs_of Rq prog (log _ _ s)) /\
  (forall i c idx r, nth_error (clients _ _ s) i = Some c -> In (idx, r) (got _ c) ->
     answer_in L Rq Rs lstep prog l0 (log _ _ s) (i, idx) = Some r) /\
  (forall k r, slots _ _ s k = SFilled _ r -> answer_in L Rq Rs lstep prog l0 (log _ _ s) k = Some r).
Proof. exact linearizable. Qed.
Print Assumptions C09_linearizable.

(* that order respects each client's own order ... *)
Theorem C09_program_order :
  forall (L Rq Rs : Type) (lstep : L -> Rq -> L * Rs) (panics : L -> Rq -> bool) (prog : nat -> list Rq)
         (nclients cap : nat) (l0 : L) (s : state L Rs) (i : nat),
  reach L Rq Rs lstep panics prog nclients cap l0 s -> increasing (idxs i (log _ _ s ++ queue _ _ s)).
Proof. exact program_order. Qed.
Print Assumptions C09_program_order.

(* ... and real-time precedence: if a's response was received before b was invoked, a precedes b *)
Theorem C09_real_time :
  forall (L Rq Rs : Type) (lstep : L -> Rq -> L * Rs) (panics : L -> Rq -> bool) (prog : nat -> list Rq)
         (nclients cap : nat) (l0 : L) (s1 s2 : state L Rs) (ia : nat) (ca : client Rs) (idxa : nat) (ra : Rs)
         (ib : nat) (cb : client Rs) (idxb : nat),
  reach L Rq Rs lstep panics prog nclients cap l0 s1 -> steps L Rq Rs lstep panics prog cap s1 s2 ->
  nth_error (clients _ _ s1) ia = Some ca -> In (idxa, ra) (got _ ca) ->
  nth_error (clients _ _ s1) ib = Some cb -> ((next _ cb < idxb)%nat \/ (next _ cb = idxb /\ ctl _ cb = Idle)) ->
  In (ib, idxb) (log _ _ s2) ->
  exists pre post, log _ _ s2 = pre ++ post /\ In (ia, idxa) pre /\ ~ In (ib, idxb) pre.
Proof. exact real_time. Qed.
Print Assumptions C09_real_time.

(* N unit requests carrying the same timestamp on a full bucket of capacity B, in any order:
   exactly min(N, B) are admitted (with C02_decisions_equal_bucket this is the limiter's count,
   whichever clients and protocols carried the requests) *)
Theorem C09_burst_exact :
  forall (E B : Z) (t : Z) (n : nat), (1 <= E)%Z -> (0 <= B)%Z ->
  Z.of_nat (length (filter (fun d => d) (bdecide E B (full E B t) (repeat (1%Z, t) n)))) = Z.min (Z.of_nat n) B.
Proof. exact burst_exact. Qed.
Print Assumptions C09_burst_exact.

(* KNOWN FINDING (stamp-disorder): the clause above needs the requests to be served in timestamp order.
   The transports stamp a request before queueing it; two simultaneous requests can be queued in the
   opposite order of their stamps, and then the GCRA step denies the later-served one while a token is
   left (observed on the real server: findings/F10-stamp-disorder.json). *)
Theorem C09_refuted_by_stamp_disorder :
  exists E B t d, (1 <= E)%Z /\ (0 < d)%Z /\
    let r1 := kstep E B None 1 (t + d) in
    let r2 := kstep E B (fst r1) 1 t in
    allowed (snd r1) = true /\ remaining (snd r1) = 1%Z /\ allowed (snd r2) = false /\ retry_after (snd r2) = d.
Proof. exact burst_short_under_stamp_disorder. Qed.
Print Assumptions C09_refuted_by_stamp_disorder.
