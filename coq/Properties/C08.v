(* C08 - rate_limit is total: no input panics it, errors are the documented ones. *)
From Coq Require Import ZArith Bool List.
Import ListNotations.
Require Import TC.Base.Map TC.Store.Stores TC.Store.AbsMap TC.Store.Refine TC.Limiter.Arith TC.Limiter.KeyStep
  TC.Limiter.Limiter TC.Limiter.Abstract TC.Limiter.Total TC.Float.Rate64 TC.Float.RateUnits.
Open Scope Z_scope.

(* For every key, every i64 limits and quantity, every timestamp 1970..2200, every non-negative
   emission interval the Rate constructor may return, every built-in store in every reachable
   state (related to an abstract map, whatever values it holds - e.g. written under other limits),
   every oracle bit: the outcome is the negative-quantity error, the invalid-parameters error, or a
   result with limit = max_burst, 0 <= remaining <= limit, retry_after = 0 exactly when admitted,
   and a request of quantity <= max_burst on a key with no visible state is admitted.
   [Panic] (the model's outcome for every panicking operation of the code: SystemTime + Duration)
   and the internal error are impossible. *)
Theorem C08_total_classification :
  forall (K : Type) (keqb : K -> K -> bool), (forall a b, reflect (a = b) (keqb a b)) ->
  forall (rate : Z -> Z -> Z), (forall c p, 0 <= rate c p) ->
  forall (t0 : Z) (st : store K) (orc : bool) (rq : req K) (m : absmap K),
  R K keqb t0 (sdata K st) m -> t0 <= r_now rq -> 0 <= r_now rq <= t2200 -> req_in_i64 K rq ->
  if r_q rq <? 0 then snd (rate_limit K keqb rate st orc rq) = ErrNegativeQuantity
  else if (r_B rq <=? 0) || (r_count rq <=? 0) || (r_period rq <=? 0)
       then snd (rate_limit K keqb rate st orc rq) = ErrInvalidRateLimit
  else exists r, snd (rate_limit K keqb rate st orc rq) = Ok r /\
       limit r = r_B rq /\ 0 <= remaining r <= r_B rq /\ (retry_after r = 0 <-> allowed r = true) /\
       (avis m (r_key rq) (r_now rq) = None -> r_q rq <= r_B rq -> allowed r = true).
Proof. exact rate_limit_total. Qed.
Print Assumptions C08_total_classification.

Theorem C08_never_panics_never_internal :
  forall (K : Type) (keqb : K -> K -> bool), (forall a b, reflect (a = b) (keqb a b)) ->
  forall (rate : Z -> Z -> Z), (forall c p, 0 <= rate c p) ->
  forall (t0 : Z) (st : store K) (orc : bool) (rq : req K) (m : absmap K),
  R K keqb t0 (sdata K st) m -> t0 <= r_now rq -> 0 <= r_now rq <= t2200 -> req_in_i64 K rq ->
  snd (rate_limit K keqb rate st orc rq) <> Panic /\ snd (rate_limit K keqb rate st orc rq) <> ErrInternal.
Proof. exact rate_limit_never_fails. Qed.
Print Assumptions C08_never_panics_never_internal.

(* the arithmetic alone: sane for ANY stored value and ANY non-negative emission interval; all
   durations fit i64/u64 (no negative value is ever cast to u64) *)
Theorem C08_arithmetic_sanity :
  forall (Edur B q now : Z) (tv : option Z),
  0 <= Edur -> 1 <= B <= i64max -> 0 <= q <= i64max -> 0 <= now <= t2200 ->
  let c := m_calc Edur B q now tv in
  let r := snd c in
  limit r = B /\ 0 <= remaining r <= B /\ (retry_after r = 0 <-> allowed r = true) /\
  0 <= snd (fst c) <= i64max /\ 0 <= reset_after r <= i64max /\ 0 <= retry_after r <= i64max.
Proof. exact m_calc_sanity. Qed.
Print Assumptions C08_arithmetic_sanity.

(* the hypothesis on the rate function holds for the model of Rate::from_count_and_period *)
Theorem C08_rate_model_nonneg : forall c p, 0 <= from_count_and_period c p.
Proof. exact from_count_and_period_nonneg. Qed.
Print Assumptions C08_rate_model_nonneg.
