(* C14 - RESP encode/decode are inverse and every reply is exactly one frame. *)
From Coq Require Import ZArith NArith List Bool.
Import ListNotations.
Require Import TC.Generated.Consts TC.Resp.Utf8 TC.Resp.Decimal TC.Resp.Parse TC.Resp.ParseProofs TC.Resp.RoundTrip
  TC.Resp.ParsedWf TC.Resp.Cmd TC.Resp.CmdProofs.
Open Scope N_scope.

(* Encoding any well-formed value (strings valid UTF-8, simple strings and errors without a CR LF
   pair - weaker than "free of line breaks" -, integers in i64, lengths within the limits) and
   decoding the bytes - followed by anything - gives back the same value and consumes exactly the
   encoded length, at any parser depth such that the value's nesting stays within the limit. *)
Theorem C14_roundtrip :
  forall (v : value), wf v = true -> forall (depth : nat) (rest : bytes) (f : nat),
  (depth + vdepth v <= max_depth)%nat -> (2 * length (serialize v ++ rest) + 1 <= f)%nat ->
  parse f depth (serialize v ++ rest) = (POk v (length (serialize v)), depth).
Proof. exact roundtrip. Qed.
Print Assumptions C14_roundtrip.

Theorem C14_roundtrip_top :
  forall (v : value) (rest : bytes), wf v = true -> (vdepth v <= max_depth)%nat ->
  parse_top (serialize v ++ rest) = POk v (length (serialize v)).
Proof. exact roundtrip_top. Qed.
Print Assumptions C14_roundtrip_top.

(* everything the decoder returns is well-formed (so echoing a client-supplied value is safe) *)
Theorem C14_parsed_values_wf :
  forall (d : bytes) (v : value) (c : nat), parse_top d = POk v c -> wf v = true /\ (vdepth v <= max_depth)%nat.
Proof. exact parse_top_wf. Qed.
Print Assumptions C14_parsed_values_wf.

(* every reply of the command handler - whatever the command name and arguments contain, for any
   upper-casing oracle producing valid UTF-8 and any limiter answer with single-line error texts -
   is one well-formed value ... *)
Theorem C14_reply_wf :
  forall (upper : bytes -> bytes) (throttle : treq -> actor_res),
  (forall s, utf8_valid s = true -> utf8_valid (upper s) = true) ->
  (forall r msg, throttle r = AErr msg -> utf8_valid msg = true /\ no_crlf msg = true) ->
  (forall r a l rm rs rt, throttle r = AOk a l rm rs rt ->
     in_i64b l = true /\ in_i64b rm = true /\ in_i64b rs = true /\ in_i64b rt = true) ->
  forall (v : value), okv v -> okv (fst (process_command upper throttle v)).
Proof. exact reply_wf. Qed.
Print Assumptions C14_reply_wf.

(* ... hence the bytes written for it decode to exactly that one value and consume all of them:
   the reply stream never desynchronises from the command stream *)
Theorem C14_reply_one_frame :
  forall (upper : bytes -> bytes) (throttle : treq -> actor_res),
  (forall s, utf8_valid s = true -> utf8_valid (upper s) = true) ->
  (forall r msg, throttle r = AErr msg -> utf8_valid msg = true /\ no_crlf msg = true) ->
  (forall r a l rm rs rt, throttle r = AOk a l rm rs rt ->
     in_i64b l = true /\ in_i64b rm = true /\ in_i64b rs = true /\ in_i64b rt = true) ->
  forall (v : value) (rest : bytes), okv v ->
  let reply := fst (process_command upper throttle v) in
  parse_top (serialize reply ++ rest) = POk reply (length (serialize reply)).
Proof. exact reply_one_frame. Qed.
Print Assumptions C14_reply_one_frame.

(* decimal text of every i64 parses back *)
Theorem C14_integer_roundtrip : forall z, in_i64b z = true -> parse_i64 (print_Z z) = Some z.
Proof. exact parse_print. Qed.
Print Assumptions C14_integer_roundtrip.

Example C14_example :
  let v := Arr [Bulk (Some [13;10;102]); Int (-9223372036854775808); Bulk None; Arr []; Simple [79;75]; Error [13]] in
  wf v = true /\ parse_top (serialize v ++ [43]) = POk v (length (serialize v)).
Proof. vm_compute. split; reflexivity. Qed.
