(* C03 - Response fields are truthful: limit, remaining, retry_after, reset_after.
   Stated on the per-key step [kstep E B] from every key state satisfying the reachability
   invariant [Inv E B s t] (t = time of the last request on the key); C05_projection shows every
   response of the concrete limiter for a fixed-limits key is such a step, and
   C03_invariant_reachable that every state reached from "never seen" satisfies Inv. *)
From Coq Require Import ZArith Bool List.
Import ListNotations.
Require Import TC.Limiter.Arith TC.Limiter.KeyStep TC.Limiter.KeyLemmas TC.Limiter.Fields
  TC.Limiter.Limiter TC.Limiter.Machine.
Open Scope Z_scope.

Theorem C03_invariant_reachable :
  forall (E B : Z), inD E B -> forall (s : kstate) (t q now : Z),
  Inv E B None t /\
  (Inv E B s t -> t <= now -> time_ok now -> 0 <= q -> Inv E B (fst (kstep E B s q now)) now).
Proof. intros E B HD s t q now. split; [exact (Inv_none E B t)|exact (kstep_inv E B HD s t q now)]. Qed.
Print Assumptions C03_invariant_reachable.

(* limit = max_burst and 0 <= remaining <= limit *)
Theorem C03_limit_and_range :
  forall (E B : Z), inD E B -> forall (s : kstate) (t q now : Z),
  Inv E B s t -> t <= now -> time_ok now -> 0 <= q ->
  limit (snd (kstep E B s q now)) = B /\ 0 <= remaining (snd (kstep E B s q now)) <= B.
Proof. exact limit_and_range. Qed.
Print Assumptions C03_limit_and_range.

(* remaining is exact: immediately afterwards a request for r tokens is admitted iff r <= remaining
   (so `remaining` is admitted and `remaining + 1` is denied) *)
Theorem C03_remaining_exact :
  forall (E B : Z), inD E B -> forall (s : kstate) (t q now r : Z),
  Inv E B s t -> t <= now -> time_ok now -> 0 <= q -> 0 <= r ->
  allowed (snd (kstep E B (fst (kstep E B s q now)) r now)) = (r <=? remaining (snd (kstep E B s q now))).
Proof. exact remaining_exact. Qed.
Print Assumptions C03_remaining_exact.

(* retry_after is zero exactly when the request was admitted *)
Theorem C03_retry_zero_iff_allowed :
  forall (E B : Z), inD E B -> forall (s : kstate) (t q now : Z),
  Inv E B s t -> t <= now -> time_ok now -> 0 <= q ->
  (retry_after (snd (kstep E B s q now)) = 0 <-> allowed (snd (kstep E B s q now)) = true).
Proof. exact retry_zero_iff_allowed. Qed.
Print Assumptions C03_retry_zero_iff_allowed.

(* a denied request of quantity <= max_burst, repeated retry_after later with no other traffic on
   the key, is admitted; at every earlier instant (not only 1 ns earlier) it is denied *)
Theorem C03_retry_exact :
  forall (E B : Z), inD E B -> forall (s : kstate) (t q now : Z),
  Inv E B s t -> t <= now -> time_ok now -> 0 <= q <= B ->
  allowed (snd (kstep E B s q now)) = false ->
  let ra := retry_after (snd (kstep E B s q now)) in
  0 < ra /\
  (time_ok (now + ra) -> allowed (snd (kstep E B s q (now + ra))) = true) /\
  (forall d, 0 <= d < ra -> allowed (snd (kstep E B s q (now + d))) = false).
Proof. exact retry_exact. Qed.
Print Assumptions C03_retry_exact.

(* reset_after is never shorter than the time to regain the full burst *)
Theorem C03_reset_regains_burst :
  forall (E B : Z), inD E B -> forall (s : kstate) (t q now : Z),
  Inv E B s t -> t <= now -> time_ok now -> 0 <= q ->
  let now2 := now + reset_after (snd (kstep E B s q now)) in
  time_ok now2 -> allowed (snd (kstep E B (fst (kstep E B s q now)) B now2)) = true.
Proof. exact reset_regains_burst. Qed.
Print Assumptions C03_reset_regains_burst.

(* whenever the limiter writes the key's state (admitted, positive quantity), the stored entry
   expires exactly reset_after later ... *)
Theorem C03_reset_equals_lifetime :
  forall (E B : Z), inD E B -> forall (s : kstate) (t q now : Z),
  Inv E B s t -> t <= now -> time_ok now -> 0 < q ->
  allowed (snd (kstep E B s q now)) = true ->
  exists tat, fst (kstep E B s q now) = Some (tat, now + reset_after (snd (kstep E B s q now))) /\
              tat + E <= now + reset_after (snd (kstep E B s q now)).
Proof. exact reset_equals_lifetime. Qed.
Print Assumptions C03_reset_equals_lifetime.

(* ... and, on the machine arithmetic of rate_limit itself: the TTL handed to the store equals the
   reset_after of the response, the response is the per-key step's, and the TTL fits a u64 *)
Theorem C03_ttl_handed_to_store :
  forall (E B : Z), inD E B -> forall (s : kstate) (t q now : Z),
  Inv E B s t -> t <= now -> time_ok now -> 0 <= q <= i64max ->
  let c := m_calc E B q now (kvisible s now) in
  let sr := kstep E B s q now in
  snd c = snd sr /\ fst (fst (fst c)) = allowed (snd sr) /\
  (allowed (snd sr) = true -> 0 < q ->
     fst sr = Some (snd (fst (fst c)), now + snd (fst c)) /\ 0 <= snd (fst c) <= u64max /\
     snd (fst c) = reset_after (snd sr)).
Proof. exact m_calc_kstep. Qed.
Print Assumptions C03_ttl_handed_to_store.

(* once reset_after has elapsed the key behaves as never seen: same response to any request, and
   the same effective state at every later instant *)
Theorem C03_after_reset_fresh :
  forall (E B : Z), inD E B -> forall (s : kstate) (t q now q2 now2 : Z),
  Inv E B s t -> t <= now -> time_ok now -> 0 <= q ->
  now + reset_after (snd (kstep E B s q now)) <= now2 ->
  snd (kstep E B (fst (kstep E B s q now)) q2 now2) = snd (kstep E B None q2 now2) /\
  forall now3, now2 <= now3 ->
    eff E (fst (kstep E B (fst (kstep E B s q now)) q2 now2)) now3 = eff E (fst (kstep E B None q2 now2)) now3.
Proof. exact after_reset_fresh. Qed.
Print Assumptions C03_after_reset_fresh.

(* non-vacuity: a reachable state and concrete numbers (B = 5, E = 1 s) *)
Example C03_example :
  let E := 1000000000 in let B := 5 in let t0 := 1700000000000000000 in
  let s1 := fst (kstep E B None 5 t0) in
  inD E B /\ Inv E B s1 t0 /\
  snd (kstep E B s1 1 (t0 + 2 * E)) =
    {| allowed := true; limit := 5; remaining := 1; reset_after := 7 * E; retry_after := 0 |} /\
  snd (kstep E B s1 4 (t0 + 2 * E)) =
    {| allowed := false; limit := 5; remaining := 2; reset_after := 6 * E; retry_after := 2 * E |}.
Proof. vm_compute. repeat split; try (intros; discriminate). Qed.
