(* C18 - Rate arithmetic: the configured rate is realised to within 1 ns per token.
   Only theorem statements here; each is closed by [exact <lemma>]. *)
From Coq Require Import ZArith.
Require Import TC.Generated.Consts TC.Float.Rate64 TC.Float.RateProofs TC.Float.RateUnits.
Open Scope Z_scope.

(* the emission interval is the exact quotient rounded down to a nanosecond *)
Theorem C18_rate_exact : forall count period,
  1 <= period <= 9000000 -> 1 <= count <= period * 1000000000 ->
  from_count_and_period count period = (period * 1000000000) / count.
Proof. exact c18_rate_exact. Qed.
Print Assumptions C18_rate_exact.

(* E x count <= period < (E + 1ns) x count, and E >= 1ns *)
Theorem C18_rate_bracket : forall count period,
  1 <= period <= 9000000 -> 1 <= count <= period * 1000000000 ->
  let E := from_count_and_period count period in
  1 <= E /\ E * count <= period * 1000000000 < (E + 1) * count.
Proof. exact c18_rate_bracket. Qed.
Print Assumptions C18_rate_bracket.

(* per_second / per_minute / per_hour / per_day agree with the general constructor
   for every n in 1 .. 2^32-1, and do not panic there ([Some]) *)
Theorem C18_unit_constructors : forall n, 1 <= n <= 4294967295 ->
  per_second n = Some (from_count_and_period n 1) /\
  per_minute n = Some (from_count_and_period n 60) /\
  per_hour n = Some (from_count_and_period n 3600) /\
  per_day n = Some (from_count_and_period n 86400).
Proof. exact c18_unit_constructors. Qed.
Print Assumptions C18_unit_constructors.

(* non-positive arguments give the documented blocking rate (u64::MAX seconds), never a panic:
   [from_count_and_period] is a total function whose only outcomes are durations *)
Theorem C18_invalid_blocks : forall count period, count <= 0 \/ period <= 0 ->
  from_count_and_period count period = 18446744073709551615 * 1000000000.
Proof. exact invalid_blocks. Qed.
Print Assumptions C18_invalid_blocks.

(* exactness beyond the property's domain: any count < 2^53, period * 1e9 < 2^53 *)
Theorem C18_rate_exact_wide : forall count period,
  1 <= count < 2^53 -> 1 <= period -> period * 1000000000 < 2^53 ->
  from_count_and_period count period = (period * 1000000000) / count.
Proof. exact c18_rate_exact_wide. Qed.
Print Assumptions C18_rate_exact_wide.

(* non-vacuity: concrete points of the domain, evaluated through the binary64 model *)
Example C18_examples :
  from_count_and_period 100 60 = 600000000 /\
  from_count_and_period 7 60 = 8571428571 /\
  from_count_and_period 3 9000000 = 3000000000000000 /\
  from_count_and_period 9000000000000000 9000000 = 1 /\
  per_second 3 = Some 333333333 /\ per_day 4294967295 = Some 20116 /\
  per_second 4294967296 = None.
Proof. vm_compute. repeat split. Qed.
