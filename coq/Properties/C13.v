(* C13 - RESP decoding is safe on any bytes and independent of packet boundaries. *)
From Coq Require Import ZArith NArith List Bool.
Import ListNotations.
Require Import TC.Generated.Consts TC.Resp.Utf8 TC.Resp.Decimal TC.Resp.Parse TC.Resp.ParseProofs TC.Resp.Local TC.Resp.Conn TC.Resp.ConnProofs.
Open Scope N_scope.

(* For ANY byte sequence and any parser depth: decoding terminates with enough fuel (the model's
   fuel never runs out), never takes an out-of-bounds slice (PPanic, the model's outcome of every
   slice the code takes without its own guard, is unreachable), reports a consumed length between
   1 and the bytes available, and leaves the parser's nesting depth as it was whenever it returns
   a value or "need more data". *)
Theorem C13_total_in_bounds :
  forall (depth : nat) (d : bytes),
  fst (parse_with depth d) <> POutOfFuel /\ fst (parse_with depth d) <> PPanic /\
  ok_range 1 (length d) (fst (parse_with depth d)) /\
  depth_kept (snd (parse_with depth d)) depth (fst (parse_with depth d)).
Proof. exact parse_with_total. Qed.
Print Assumptions C13_total_in_bounds.

(* declared bulk lengths, array counts and nesting beyond the limits (regenerated from the
   source: MAX_BULK_STRING_SIZE, MAX_ARRAY_SIZE, MAX_ARRAY_DEPTH), and negatives other than -1,
   are rejected *)
Theorem C13_bulk_limit :
  forall (d : bytes) (len : Z) (c : nat), line_int d = LOk len c -> (len < -1 \/ MAX_BULK_STRING_SIZE < len)%Z ->
  parse_bulk d = PErr BadBulkLen.
Proof. exact bulk_limit. Qed.
Print Assumptions C13_bulk_limit.

Theorem C13_array_limit :
  forall (f depth : nat) (r : bytes) (cnt : Z) (c : nat),
  (depth < max_depth)%nat -> line_int (42 :: r) = LOk cnt c -> (cnt < -1 \/ MAX_ARRAY_SIZE < cnt)%Z ->
  parse (S f) depth (42 :: r) = (PErr BadArrayLen, depth).
Proof. exact array_limit. Qed.
Print Assumptions C13_array_limit.

Theorem C13_depth_limit :
  forall (f depth : nat) (r : bytes), (max_depth <= depth)%nat -> max_depth = Z.to_nat MAX_ARRAY_DEPTH ->
  parse (S f) depth (42 :: r) = (PErr TooDeep, depth).
Proof. intros f depth r H _. exact (depth_limit f depth r H). Qed.
Print Assumptions C13_depth_limit.

(* once a value or an error has been returned for a buffer, every extension of the buffer gives
   the same outcome (and the same parser depth) *)
Theorem C13_prefix_stable :
  forall (depth : nat) (d x : bytes),
  final (fst (parse_with depth d)) -> parse_with depth (d ++ x) = parse_with depth d.
Proof. exact parse_with_ext. Qed.
Print Assumptions C13_prefix_stable.

(* a strict prefix of a complete frame yields "need more data" *)
Theorem C13_strict_prefix_needs_more :
  forall (depth : nat) (p s : bytes) (v : value),
  s <> [] -> fst (parse_with depth (p ++ s)) = POk v (length (p ++ s)) ->
  fst (parse_with depth p) = PNeedMore.
Proof. exact strict_prefix_needs_more. Qed.
Print Assumptions C13_strict_prefix_needs_more.

(* CHUNKING INDEPENDENCE OF THE REAL CONNECTION LOOP, buffer limit included (any "is QUIT" test): however
   the byte stream is cut into socket reads, the commands delivered are those of decoding the whole
   stream at once, and the connection is open afterwards exactly when the whole-stream reference is
   (closed by QUIT exactly when it is).  Frames of at most MAX_BUFFER_SIZE bytes are always accepted,
   longer ones always refused. *)
Theorem C13_chunking_independent :
  forall (isq : value -> bool) (chunks : list bytes),
  fst (conn_run isq conn_init chunks) = fst (whole isq (concat chunks)) /\
  (c_end (snd (conn_run isq conn_init chunks)) = Open <-> snd (whole isq (concat chunks)) = Open) /\
  (c_end (snd (conn_run isq conn_init chunks)) = ClosedByQuit <-> snd (whole isq (concat chunks)) = ClosedByQuit).
Proof. exact real_run_is_whole. Qed.
Print Assumptions C13_chunking_independent.

(* from any open connection state whose buffer is a pending remainder *)
Theorem C13_chunking_independent_from :
  forall (isq : value -> bool) (chunks : list bytes) (cn : conn),
  c_end cn = Open -> drain_all isq (c_depth cn) (c_buf cn) = ([], c_buf cn, c_depth cn, CNeedMore) -> (length (c_buf cn) <= cap)%nat ->
  let r := conn_run isq cn chunks in
  let '(vs, b, d, s) := drain_all isq (c_depth cn) (c_buf cn ++ concat chunks) in
  fst r = vs /\ (c_end (snd r) = Open <-> end_of s b = Open) /\ (c_end (snd r) = ClosedByQuit <-> end_of s b = ClosedByQuit).
Proof. exact chunking_independent_real. Qed.
Print Assumptions C13_chunking_independent_from.

Theorem C13_two_splittings_agree :
  forall (isq : value -> bool) (cs1 cs2 : list bytes),
  concat cs1 = concat cs2 ->
  fst (conn_run isq conn_init cs1) = fst (conn_run isq conn_init cs2) /\
  (c_end (snd (conn_run isq conn_init cs1)) = Open <-> c_end (snd (conn_run isq conn_init cs2)) = Open).
Proof. exact two_splittings_agree_real. Qed.
Print Assumptions C13_two_splittings_agree.

(* locality of decoding (converse of prefix stability): a value decoded from a buffer is decoded, with the
   same consumed length, from every prefix containing the consumed bytes; hence the undecoded remainder
   of a connection is a strict prefix of the frame that completes it *)
Theorem C13_decode_local :
  forall depth d x v c dp,
  parse_with depth (d ++ x) = (POk v c, dp) -> (c <= length d)%nat -> parse_with depth d = (POk v c, dp).
Proof. exact parse_with_restrict. Qed.
Print Assumptions C13_decode_local.

(* the buffer limit (MAX_BUFFER_SIZE, regenerated): between reads an open connection holds at most cap
   undecoded bytes, during a read at most the chunk just read more, the remainder never grows by decoding *)
Theorem C13_buffer_cap :
  forall (isq : value -> bool) (cn : conn) (chunk : bytes),
  c_end cn = Open -> (length (c_buf cn) <= cap)%nat ->
  let r := conn_feed isq cn chunk in
  (length (c_buf cn ++ chunk) <= cap + length chunk)%nat /\
  (length (c_buf (snd r)) <= length (c_buf cn ++ chunk))%nat /\
  (c_end (snd r) = Open -> (length (c_buf (snd r)) <= cap)%nat).
Proof. exact buffer_cap. Qed.
Print Assumptions C13_buffer_cap.

Example C13_examples :
  parse_top [42;50;13;10;36;51;13;10;102;111;111;13;10;58;52;50;13;10] = POk (Arr [Bulk (Some [102;111;111]); Int 42]) 18 /\
  parse_top [36;51;13;10;102;111;111;88;89] = POk (Bulk (Some [102;111;111])) 9 /\
  parse_top [42;49;13;10] = PNeedMore /\ parse_top [33] = PErr BadMarker /\ Z.of_nat cap = 65536%Z /\ Z.of_nat max_depth = 128%Z.
Proof. vm_compute. repeat split; reflexivity. Qed.
