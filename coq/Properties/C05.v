(* C05 - Key isolation: traffic on one key never affects another. *)
From Coq Require Import ZArith Bool List.
Import ListNotations.
Require Import TC.Base.Map TC.Store.Stores TC.Store.Refine TC.Limiter.KeyStep TC.Limiter.KeyLemmas
  TC.Limiter.Limiter TC.Limiter.Abstract TC.Limiter.Project TC.Limiter.Top TC.Limiter.Regress TC.Store.AbsMap.
Open Scope Z_scope.

(* For every key type (byte strings with exact equality are one instance), every rate function,
   every built-in store in any configuration and scheduling state with an empty table, every
   oracle stream and every multi-key history h with non-decreasing timestamps in 1970..2100 in
   which key k is used with fixed limits in D - while all OTHER keys carry arbitrary requests
   (any limits, valid or not): the responses to key k's requests are the per-key step folded
   over key k's own (quantity, time) list, starting from "never seen". Nothing else enters. *)
Theorem C05_projection :
  forall (K : Type) (keqb : K -> K -> bool), (forall a b, reflect (a = b) (keqb a b)) ->
  forall (rate : Z -> Z -> Z) (st0 : store K) (h : list (bool * req K)) (k : K) (B count period t0 : Z),
  fixed_key_history K keqb rate st0 h k B count period t0 ->
  project K keqb k (map snd h) (snd (lrun K keqb rate st0 h)) =
  snd (krun (rate count period) B None (kreqs K keqb k (map snd h))).
Proof. exact lim_projection. Qed.
Print Assumptions C05_projection.

(* hence two histories (different stores, configurations, oracle streams, other-key traffic)
   that agree on key k's own requests give key k the same responses *)
Theorem C05_isolation :
  forall (K : Type) (keqb : K -> K -> bool), (forall a b, reflect (a = b) (keqb a b)) ->
  forall (rate : Z -> Z -> Z) (st1 st2 : store K) (h1 h2 : list (bool * req K)) (k : K) (B count period t1 t2 : Z),
  fixed_key_history K keqb rate st1 h1 k B count period t1 ->
  fixed_key_history K keqb rate st2 h2 k B count period t2 ->
  kreqs K keqb k (map snd h1) = kreqs K keqb k (map snd h2) ->
  project K keqb k (map snd h1) (snd (lrun K keqb rate st1 h1)) =
  project K keqb k (map snd h2) (snd (lrun K keqb rate st2 h2)).
Proof. exact lim_isolation. Qed.
Print Assumptions C05_isolation.

(* a request never changes the abstract state of any other key, whatever its parameters *)
Theorem C05_frame :
  forall (K : Type) (keqb : K -> K -> bool) (rate : Z -> Z -> Z) (am : AbsMap.absmap K) (rq : req K) (k' : K),
  keqb k' (r_key rq) = false -> fst (al_step K keqb rate am rq) k' = am k'.
Proof. exact al_step_frame. Qed.
Print Assumptions C05_frame.

(* timestamps NOT globally ordered (each key on its own clock): isolation still holds for every
   execution without a stale-forget event; with such events it genuinely fails (known finding
   shared with C17: C17_refuted_by_stale_forget, findings/F7-stale-forget.json) *)
Theorem C05_projection_no_stale_forget :
  forall (K : Type) (keqb : K -> K -> bool), (forall a b, reflect (a = b) (keqb a b)) ->
  forall (rate : Z -> Z -> Z) (st0 : store K) (h : list (bool * req K)) (k : K) (B count period : Z),
  sdata K st0 = [] ->
  inD (rate count period) B -> 1 <= count -> 1 <= period ->
  times_ok K (map snd h) -> key_fixed K keqb k B count period (map snd h) ->
  no_stale_forget K keqb rate st0 abs_empty h ->
  project K keqb k (map snd h) (snd (lrun K keqb rate st0 h)) =
  snd (krun (rate count period) B None (kreqs K keqb k (map snd h))).
Proof. exact lim_projection_any_order. Qed.
Print Assumptions C05_projection_no_stale_forget.
