(* C16 - Denied-key tracking is bounded, never overstates, and exports safely. *)
From Coq Require Import ZArith NArith List Bool Permutation.
Import ListNotations.
Require Import TC.Generated.Consts TC.Base.Map TC.Resp.Utf8 TC.Server.Denied TC.Server.Escape TC.Corr.DeniedCorr TC.Corr.DeniedSound TC.Server.DeniedConc.
Open Scope Z_scope.

(* [dstep]/[drun]: every behaviour of TopDeniedKeys::update (+ cleanup) for every survivor choice an
   eviction can make; [valid_top]: every report get_top can return (ties in any order). *)

(* the report lists at most max keys in non-increasing count order *)
Theorem C16_report_shape : forall (mx : nat) (t : tbl) (r : list (bytes * Z)),
  valid_top mx t r -> (length r <= mx)%nat /\ desc_sorted r.
Proof. exact report_shape. Qed.
Print Assumptions C16_report_shape.

(* no key is ever shown with more denials than it really had, after any denial stream *)
Theorem C16_never_overstates : forall (mx : nat) (ks : list bytes) (t : tbl) (r : list (bytes * Z)) (k : bytes) (n : Z),
  drun mx [] ks t -> valid_top mx t r -> In (k, n) r -> 1 <= n <= true_count ks k.
Proof. exact report_never_overstates. Qed.
Print Assumptions C16_never_overstates.

(* exact while the number of distinct denied keys stays within max *)
Theorem C16_exact_while_few : forall (mx : nat) (ks : list bytes) (t : tbl) (r : list (bytes * Z)),
  (1 <= mx)%nat -> drun mx [] ks t -> (length (exact_tbl [] ks) <= mx)%nat -> valid_top mx t r ->
  t = exact_tbl [] ks /\ length r = length t /\ (forall k n, In (k, n) r -> n = true_count ks k).
Proof. exact report_exact_while_few. Qed.
Print Assumptions C16_exact_while_few.

(* keys longer than MAX_KEY_LENGTH (regenerated: 256) bytes never enter the table *)
Theorem C16_length_filter : forall (mx : nat) (t : tbl) (k : bytes) (t' : tbl),
  dstep mx t k t' -> short k = false -> t' = t.
Proof. exact length_filter. Qed.
Print Assumptions C16_length_filter.

(* at most factor x max keys after every update (factor regenerated: 3), one more during it *)
Theorem C16_memory_bound : forall (mx : nat) (t : tbl) (k : bytes) (t' : tbl),
  uniq t -> (length t <= mx * factor)%nat -> dstep mx t k t' ->
  uniq t' /\ (length t' <= mx * factor)%nat /\ (length (incr t k) <= mx * factor + 1)%nat.
Proof. exact memory_bound. Qed.
Print Assumptions C16_memory_bound.

(* the builder clamps to [0, MAX_DENIED_KEYS_LIMIT]; a request of 0 (or less) disables tracking *)
Theorem C16_clamp_disable : forall (requested : Z),
  0 <= clamp_max requested <= MAX_DENIED_KEYS_LIMIT /\ (requested <= 0 -> tracking_enabled requested = false).
Proof. exact clamp_disable. Qed.
Print Assumptions C16_clamp_disable.

(* export safety: for ANY key content (any code points) a Prometheus label scanner reads back
   exactly the escaped key and stops at the quote the exporter wrote; the escaped text contains no
   raw control character, in particular no line feed; the sample line has exactly one line feed *)
Theorem C16_label_scans_back : forall (s rest acc : list N) (f : nat),
  (4 * length s + 1 <= f)%nat ->
  scan_label f (escape s ++ QUOTE :: rest) acc = Some (rev acc ++ escape s, rest).
Proof. exact scan_escape. Qed.
Print Assumptions C16_label_scans_back.

Theorem C16_no_raw_control : forall (s : list N), forallb raw_safe (escape s) = true.
Proof. exact escape_no_control. Qed.
Print Assumptions C16_no_raw_control.

Theorem C16_line_single_newline : forall (prefix mid suffix key : list N),
  ~ In NL prefix -> ~ In NL mid -> ~ In NL suffix ->
  exists body, sample_line prefix mid suffix key = body ++ [NL] /\ ~ In NL body.
Proof. exact line_single_newline. Qed.
Print Assumptions C16_line_single_newline.

(* the acceptance function the correspondence evaluates on the real table snapshots (hook H3) is SOUND for the
   relational model: every step it accepts is a step of the model up to the listing order of the table, every
   report it accepts is a report of the model *)
Theorem C16_acceptance_sound :
  forall (mx : nat) (obs : list dobs), denied_case_ok (mx, obs) = true ->
  Forall (fun o => exists t1, dstep mx (d_prev o) (d_key o) t1 /\ same_map t1 (d_next o) /\ valid_top mx (d_next o) (d_top o)) obs.
Proof. exact denied_case_ok_sound. Qed.
Print Assumptions C16_acceptance_sound.

(* CONCURRENT recorders.  Every table update runs under one mutex, so an execution with many recorder threads applies the
   denials they recorded in SOME order: a permutation [ks'] of the recorded events [ks].  Whatever that order, while the
   distinct keys of the recorded events fit the table the report has one line per distinct key and every count is the
   key's true count among the recorded events (all premises are about the multiset [ks]). *)
Theorem C16_exact_any_interleaving :
  forall (mx : nat) (ks ks' : list bytes) (t : tbl) (r : list (bytes * Z)),
  Permutation ks ks' ->
  (1 <= mx)%nat -> (length (exact_tbl [] ks) <= mx)%nat -> drun mx [] ks' t -> valid_top mx t r ->
  length r = length (exact_tbl [] ks) /\ forall k n, In (k, n) r -> n = true_count ks k.
Proof. exact report_exact_any_interleaving'. Qed.
Print Assumptions C16_exact_any_interleaving.

(* and never above the true count, in any order, for any number of distinct keys *)
Theorem C16_never_overstates_any_interleaving :
  forall (mx : nat) (ks ks' : list bytes) (t : tbl) (r : list (bytes * Z)) (k : bytes) (n : Z),
  Permutation ks ks' -> drun mx [] ks' t -> valid_top mx t r -> In (k, n) r -> 1 <= n <= true_count ks k.
Proof. exact report_never_overstates_any_interleaving. Qed.
Print Assumptions C16_never_overstates_any_interleaving.
