(* C15 - Metrics add up and match what clients were told. *)
From Coq Require Import ZArith NArith List Bool String.
Import ListNotations.
Require Import TC.Resp.Utf8 TC.Resp.Parse TC.Resp.Cmd TC.Resp.CmdProofs TC.Server.Counters TC.Generated.Glue TC.Server.HandlerMetrics.
Open Scope Z_scope.

(* For ANY number of recorder threads with ANY programs of record_request / record_error
   operations and ANY interleaving of their atomic increments: whenever no operation is partially
   executed, total = http + grpc + redis = allowed + denied + errors, and every counter equals the
   number of events of its kind performed so far. *)
Theorem C15_quiescent_identities :
  forall (programs : list (list mop)) (s : mstate),
  reachable (initial programs) s -> quiescent s ->
  val s CTotal = val s CHttp + val s CGrpc + val s CRedis /\
  val s CTotal = val s CAllowed + val s CDenied + val s CErrors /\
  forall c, val s c = started s c.
Proof. exact quiescent_identities. Qed.
Print Assumptions C15_quiescent_identities.

(* counters never decrease, in any transition *)
Theorem C15_monotone : forall (s s' : mstate), mstep s s' -> forall c, val s c <= val s' c.
Proof. exact counters_monotone. Qed.
Print Assumptions C15_monotone.

(* and mid-operation a counter is never ahead of the operations begun *)
Theorem C15_never_ahead :
  forall (programs : list (list mop)) (s : mstate), reachable (initial programs) s -> forall c, val s c <= started s c.
Proof. exact never_ahead. Qed.
Print Assumptions C15_never_ahead.

(* RESP: a command is recorded as denied exactly when the reply written to the client is a denial
   decision of the limiter - never for PING, QUIT, unknown or malformed commands, argument errors
   or limiter errors (HTTP and gRPC: C15_http_handler_records / C15_grpc_handler_records below) *)
Theorem C15_resp_denied_iff_denial_sent :
  forall (upper : bytes -> bytes) (throttle : treq -> actor_res) (v reply : value) (ev : mevent),
  process_command upper throttle v = (reply, Some ev) ->
  (m_allowed ev = false <->
   exists cmd args rq l rm rs rt,
     v = Arr (Bulk (Some cmd) :: args) /\ bytes_eqb (upper cmd) (bytes_of_string "THROTTLE"%string) = true /\
     throttle rq = AOk false l rm rs rt /\ reply = Arr [Int 0; Int l; Int rm; Int rs; Int rt]).
Proof. exact denied_iff_denial_sent. Qed.
Print Assumptions C15_resp_denied_iff_denial_sent.

Example C15_example :
  exists s, reachable (initial [[RecRequest Http true; RecError Grpc]; [RecRequest Redis false]]) s /\ ~ quiescent s /\
            val s CTotal = 2 /\ val s CHttp = 0.
Proof.
  eexists. split.
  - eapply reach_step. eapply reach_step. eapply reach_step. eapply reach_step. apply reach_refl.
    + apply (step_begin _ 0 (RecRequest Http true) [RecError Grpc]). reflexivity.
    + apply (step_begin _ 1 (RecRequest Redis false) []). reflexivity.
    + eapply (step_inc _ 0). reflexivity.
    + eapply (step_inc _ 1). reflexivity.
  - split; [intros H; inversion H as [|? ? Hp _]; cbn in Hp; discriminate|]. split; reflexivity.
Qed.

(* HTTP and gRPC handlers (their recorder calls are re-extracted from http.rs / grpc.rs on every run): a decision of the
   limiter is recorded with the limiter's own `allowed` flag on the handler's transport, a limiter error as an error; hence
   the denied counter moves exactly for denial decisions returned to the client *)
Theorem C15_http_handler_records : forall r, handler_mop HTTP_METRICS r = Some (expected_mop Http r).
Proof. exact http_handler_mop. Qed.
Print Assumptions C15_http_handler_records.
Theorem C15_grpc_handler_records : forall r, handler_mop GRPC_METRICS r = Some (expected_mop Grpc r).
Proof. exact grpc_handler_mop. Qed.
Print Assumptions C15_grpc_handler_records.
Theorem C15_handler_denied_iff_denial : forall t r,
  In CDenied (micro (expected_mop t r)) <-> exists l rm rs rt, r = AOk false l rm rs rt.
Proof. exact handler_denied_iff. Qed.
Print Assumptions C15_handler_denied_iff_denial.

(* the model's atomicity assumption holds of the source: every update of an atomic in metrics.rs (list re-extracted on
   every run) is a fetch_add of 1 - no plain store, swap or recomputed total *)
Theorem C15_counters_only_incremented_atomically : forall p, In p METRICS_ATOMIC_OPS -> snd p = "fetch_add(1)"%string.
Proof. exact counters_only_incremented. Qed.
Print Assumptions C15_counters_only_incremented_atomically.
