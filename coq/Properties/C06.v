(* C06 - Stores are interchangeable: each is exactly a map with per-entry expiry. *)
From Coq Require Import ZArith List Bool.
Import ListNotations.
Require Import TC.Base.Map TC.Store.Stores TC.Store.AbsMap TC.Store.Refine.
Open Scope Z_scope.

(* For every key type with decidable equality, every built-in store in every configuration and
   scheduling state with an empty table, every oracle stream (the booleans paired with the
   operations) and every sequence of get / set-if-absent / compare-and-swap with non-decreasing
   times: every returned value equals the abstract expiring map's, and afterwards the table shows
   exactly the abstract map's visible values at every later instant (cleanup never removed a
   visible entry and never revived an expired one). *)
Theorem C06_store_refines_absmap :
  forall (K : Type) (keqb : K -> K -> bool), (forall a b, reflect (a = b) (keqb a b)) ->
  forall (s0 : store K) (ops : list (bool * sop K)) (t0 : Z),
  sdata K s0 = [] ->
  nondec_from t0 (map (fun p => op_time (snd p)) ops) ->
  snd (srun K keqb s0 ops) = snd (arun K keqb abs_empty (map snd ops)) /\
  forall k t, last_time K t0 ops <= t ->
    vis K keqb (sdata K (fst (srun K keqb s0 ops))) k t = avis (fst (arun K keqb abs_empty (map snd ops))) k t.
Proof. exact store_refines_absmap. Qed.
Print Assumptions C06_store_refines_absmap.

(* the same from any state related to an abstract map (every reachable state is) *)
Theorem C06_store_refines_from :
  forall (K : Type) (keqb : K -> K -> bool), (forall a b, reflect (a = b) (keqb a b)) ->
  forall (s : store K) (m : absmap K) (ops : list (bool * sop K)) (t0 : Z),
  R K keqb t0 (sdata K s) m ->
  nondec_from t0 (map (fun p => op_time (snd p)) ops) ->
  snd (srun K keqb s ops) = snd (arun K keqb m (map snd ops)) /\
  R K keqb (last_time K t0 ops) (sdata K (fst (srun K keqb s ops))) (fst (arun K keqb m (map snd ops))).
Proof. exact store_refines_from. Qed.
Print Assumptions C06_store_refines_from.

(* cleanup is invisible: a sweep at [now] changes no visibility at any t >= now *)
Theorem C06_cleanup_invisible :
  forall (K : Type) (keqb : K -> K -> bool), (forall a b, reflect (a = b) (keqb a b)) ->
  forall (d : data K) (now : Z) (k : K) (t : Z),
  uniq d -> now <= t -> vis K keqb (retain K d now) k t = vis K keqb d k t.
Proof. exact vis_retain. Qed.
Print Assumptions C06_cleanup_invisible.
