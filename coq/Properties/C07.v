(* C07 - State lives as long as it matters and is then actually reclaimed. *)
From Coq Require Import ZArith Bool List.
Import ListNotations.
Require Import TC.Generated.Consts TC.Base.Map TC.Store.Stores TC.Store.Reclaim TC.Store.Bounded
  TC.Limiter.Arith TC.Limiter.KeyStep TC.Limiter.KeyLemmas TC.Limiter.Fields.
Open Scope Z_scope.

(* ---------------- lifetime clause ---------------- *)
(* every response's reset_after - which is the lifetime handed to the store whenever the limiter
   writes (C03_reset_equals_lifetime, C03_ttl_handed_to_store) - lies in [E, 2*B*E], for every
   reachable key state, including max_burst = 1 *)
Theorem C07_lifetime_bounds :
  forall (E B : Z), inD E B -> forall (s : kstate) (t q now : Z),
  Inv E B s t -> t <= now -> time_ok now -> 0 <= q ->
  E <= reset_after (snd (kstep E B s q now)) <= 2 * B * E.
Proof. exact reset_bounds. Qed.
Print Assumptions C07_lifetime_bounds.

(* the written entry outlives its influence: tat + E <= expiry (so once it has expired its TAT is
   at least one emission interval in the past and equals "never seen") *)
Theorem C07_lifetime_covers_influence :
  forall (E B : Z), inD E B -> forall (s : kstate) (t q now : Z),
  Inv E B s t -> t <= now -> time_ok now -> 0 < q ->
  allowed (snd (kstep E B s q now)) = true ->
  exists tat, fst (kstep E B s q now) = Some (tat, now + reset_after (snd (kstep E B s q now))) /\
              tat + E <= now + reset_after (snd (kstep E B s q now)).
Proof. exact reset_equals_lifetime. Qed.
Print Assumptions C07_lifetime_covers_influence.

(* forgetting a key is indistinguishable from remembering it: replacing an expired entry by
   absence changes neither the response to any later request nor any later effective state *)
Theorem C07_forget_indistinguishable :
  forall (E B : Z) (tat ex q now : Z),
  tat + E <= ex -> ex <= now ->
  snd (kstep E B (Some (tat, ex)) q now) = snd (kstep E B None q now) /\
  forall now3, now <= now3 ->
    eff E (fst (kstep E B (Some (tat, ex)) q now)) now3 = eff E (fst (kstep E B None q now)) now3.
Proof. exact forget_indistinguishable. Qed.
Print Assumptions C07_forget_indistinguishable.

(* ---------------- reclamation clause ---------------- *)
(* a sweep leaves only entries that expire strictly later *)
Theorem C07_sweep_removes_expired :
  forall (K : Type) (d : data K) (now : Z), Forall (fun e => now < expiry_of K e) (retain K d now).
Proof. exact sweep_removes_expired. Qed.
Print Assumptions C07_sweep_removes_expired.

(* PeriodicStore: after ANY history (non-decreasing times from the construction instant on,
   non-negative TTLs, any keys) ending with a write at time t, every stored entry has
   expiry >= t - cleanup_interval *)
Theorem C07_periodic_reclaims :
  forall (K : Type) (keqb : K -> K -> bool) (t_build interval : Z) (pre : list (bool * sop K)) (orc : bool) (o : sop K),
  0 <= interval -> nondec t_build (ops_times K (pre ++ [(orc, o)])) -> ops_ttl_ok K (pre ++ [(orc, o)]) ->
  is_write o = true ->
  all_expire_from K (op_time o - interval)
    (sdata K (fst (srun K keqb (periodic_new t_build interval) (pre ++ [(orc, o)])))).
Proof. exact periodic_reclaims. Qed.
Print Assumptions C07_periodic_reclaims.

(* AdaptiveStore, every oracle stream: expiry >= t - max(5 s, min_interval, max_interval) and
   fewer than max(max_operations, 1) writes since the last sweep *)
Theorem C07_adaptive_reclaims :
  forall (K : Type) (keqb : K -> K -> bool) (t_build mn mx mo : Z) (pre : list (bool * sop K)) (orc : bool) (o : sop K),
  0 <= mn -> 0 <= mx -> nondec t_build (ops_times K (pre ++ [(orc, o)])) -> ops_ttl_ok K (pre ++ [(orc, o)]) ->
  is_write o = true ->
  let W := Z.max (ADAPTIVE_DEFAULT_CLEANUP_INTERVAL_SECS * 1000000000) (Z.max mn mx) in
  exists s', fst (srun K keqb (adaptive_new t_build mn mx mo) (pre ++ [(orc, o)])) = SAda s' /\
    all_expire_from K (op_time o - W) (a_data K s') /\ a_ops K s' < Z.max mo 1.
Proof. exact adaptive_reclaims. Qed.
Print Assumptions C07_adaptive_reclaims.

(* the guaranteed cleanup points of the two time-driven stores *)
Theorem C07_periodic_sweeps_when_due :
  forall (K : Type) (s : pstate K) (now : Z), p_next K s <= now ->
  Forall (fun e => now < expiry_of K e) (p_data K (p_clean K s now)) /\ p_next K (p_clean K s now) = now + p_interval K s.
Proof. exact periodic_sweeps_when_due. Qed.
Print Assumptions C07_periodic_sweeps_when_due.

Theorem C07_adaptive_sweeps_when_due :
  forall (K : Type) (s : astate K) (tl now : Z) (orc : bool),
  AJ K s tl -> tl <= now -> (a_maxops K s <= a_ops K s + 1 \/ a_next K s <= now) ->
  Forall (fun e => now < expiry_of K e) (a_data K (a_maybe_clean K s now orc)).
Proof. exact adaptive_sweeps_when_due. Qed.
Print Assumptions C07_adaptive_sweeps_when_due.

(* ProbabilisticStore: write number n sweeps whenever N divides n (N >= 1), inside the prefix in
   which n * multiplier has not wrapped (n * M < 2^64: the first ~6.9e9 writes); with a multiplier
   coprime to N these are the only sweeps; hence among any N consecutive writes one sweeps.
   The multiplier and the default modulus are regenerated from the source on every run. *)
Theorem C07_probabilistic_every_Nth_write :
  forall n N, 1 <= N -> 0 <= n -> n * PROB_MULTIPLIER < two64 -> (N | n) -> b_fires n N = true.
Proof. exact fires_on_multiples. Qed.
Print Assumptions C07_probabilistic_every_Nth_write.

Theorem C07_probabilistic_only_Nth_write :
  forall n N, 1 <= N -> 0 <= n -> n * PROB_MULTIPLIER < two64 -> Z.gcd PROB_MULTIPLIER N = 1 ->
  b_fires n N = true -> (N | n).
Proof. exact fires_only_on_multiples. Qed.
Print Assumptions C07_probabilistic_only_Nth_write.

Theorem C07_default_modulus_coprime : Z.gcd PROB_MULTIPLIER PROBABILISTIC_CLEANUP_MODULO = 1.
Proof. exact default_modulus_coprime. Qed.
Print Assumptions C07_default_modulus_coprime.

Theorem C07_probabilistic_gap :
  forall n N, 1 <= N -> 0 <= n -> (n + N) * PROB_MULTIPLIER < two64 ->
  exists j, 0 <= j < N /\ b_fires (n + j) N = true.
Proof. exact probabilistic_gap. Qed.
Print Assumptions C07_probabilistic_gap.

Theorem C07_probabilistic_sweep :
  forall (K : Type) (s : bstate K) (now : Z),
  b_fires ((b_ops K s + 1) mod two64) (b_prob K s) = true ->
  Forall (fun e => now < expiry_of K e) (b_data K (b_maybe_clean K s now)).
Proof. exact probabilistic_sweeps_when_fires. Qed.
Print Assumptions C07_probabilistic_sweep.

(* ---------------- bounded size (cardinality) ---------------- *)
(* the table of any built-in store is a map whose entries each stem from a write of the history; such a
   table, when all its entries expire from [lo] on, has at most as many entries as there are DISTINCT keys
   written with an expiry >= lo *)
Theorem C07_entries_bounded_by_live_keys :
  forall (K : Type) (keqb : K -> K -> bool), (forall a b, reflect (a = b) (keqb a b)) ->
  forall (ops : list (bool * sop K)) (d : data K) (lo : Z),
  prov K ops d -> all_expire_from K lo d -> (length d <= length (dedup K keqb (live_writes K lo ops)))%nat.
Proof. exact entries_bounded_by_live_keys. Qed.
Print Assumptions C07_entries_bounded_by_live_keys.

(* PeriodicStore: after ANY history ending with a write at t, the number of physical entries is at most the
   number of distinct keys written with a lifetime reaching t - cleanup_interval or later: memory follows the
   live keys, not the keys ever seen *)
Theorem C07_periodic_bounded :
  forall (K : Type) (keqb : K -> K -> bool), (forall a b, reflect (a = b) (keqb a b)) ->
  forall (t_build interval : Z) (pre : list (bool * sop K)) (orc : bool) (o : sop K),
  0 <= interval -> nondec t_build (ops_times K (pre ++ [(orc, o)])) -> ops_ttl_ok K (pre ++ [(orc, o)]) ->
  is_write o = true ->
  (length (sdata K (fst (srun K keqb (periodic_new t_build interval) (pre ++ [(orc, o)])))) <=
   length (dedup K keqb (live_writes K (op_time o - interval) (pre ++ [(orc, o)]))))%nat.
Proof. exact periodic_bounded. Qed.
Print Assumptions C07_periodic_bounded.

(* AdaptiveStore, every oracle stream: window max(5 s, min_interval, max_interval) *)
Theorem C07_adaptive_bounded :
  forall (K : Type) (keqb : K -> K -> bool), (forall a b, reflect (a = b) (keqb a b)) ->
  forall (t_build mn mx mo : Z) (pre : list (bool * sop K)) (orc : bool) (o : sop K),
  0 <= mn -> 0 <= mx -> nondec t_build (ops_times K (pre ++ [(orc, o)])) -> ops_ttl_ok K (pre ++ [(orc, o)]) ->
  is_write o = true ->
  let W := Z.max (ADAPTIVE_DEFAULT_CLEANUP_INTERVAL_SECS * 1000000000) (Z.max mn mx) in
  (length (sdata K (fst (srun K keqb (adaptive_new t_build mn mx mo) (pre ++ [(orc, o)])))) <=
   length (dedup K keqb (live_writes K (op_time o - W) (pre ++ [(orc, o)]))))%nat.
Proof. exact adaptive_bounded. Qed.
Print Assumptions C07_adaptive_bounded.

(* ProbabilisticStore (any store): right after a sweep at [now] at most the distinct keys written with a lifetime
   ending after [now] remain; between sweeps the table grows by at most one entry per write, and
   C07_probabilistic_gap bounds the number of writes between two sweeps by cleanup_probability *)
Theorem C07_swept_bounded :
  forall (K : Type) (keqb : K -> K -> bool), (forall a b, reflect (a = b) (keqb a b)) ->
  forall (ops : list (bool * sop K)) (d : data K) (now : Z),
  prov K ops d -> (length (retain K d now) <= length (dedup K keqb (live_writes K (now + 1) ops)))%nat.
Proof. exact swept_bounded. Qed.
Print Assumptions C07_swept_bounded.
Theorem C07_step_grows_by_one :
  forall (K : Type) (keqb : K -> K -> bool) (s : store K) (orc : bool) (o : sop K),
  (length (sdata K (fst (sstep K keqb s orc o))) <= S (length (sdata K s)))%nat.
Proof. exact step_grows_by_one. Qed.
Print Assumptions C07_step_grows_by_one.
(* every reachable table satisfies the premise [prov] *)
Theorem C07_tables_stem_from_writes :
  forall (K : Type) (keqb : K -> K -> bool), (forall a b, reflect (a = b) (keqb a b)) ->
  forall (ops pre : list (bool * sop K)) (s : store K),
  prov K pre (sdata K s) -> prov K (pre ++ ops) (sdata K (fst (srun K keqb s ops))).
Proof. exact prov_run. Qed.
Print Assumptions C07_tables_stem_from_writes.
