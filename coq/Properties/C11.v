(* C11 - No poison request: nothing a client sends can stop the limiter serving. *)
From Coq Require Import ZArith List Bool.
Import ListNotations.
Require Import TC.Base.Map TC.Store.Stores TC.Limiter.KeyStep TC.Limiter.Limiter TC.Limiter.Total
  TC.Resp.Utf8 TC.Resp.Parse TC.Resp.Conn TC.Server.Actor TC.Server.Linear TC.Server.Progress TC.Server.ActorLib.
Open Scope Z_scope.

(* generic: as long as the limiter does not panic on the states it goes through, the actor stays alive *)
Theorem C11_actor_survives_generic :
  forall (L Rq Rs : Type) (lstep : L -> Rq -> L * Rs) (panics : L -> Rq -> bool) (prog : nat -> list Rq)
         (nclients cap : nat) (l0 : L) (s : state L Rs),
  reach L Rq Rs lstep panics prog nclients cap l0 s ->
  (forall s0 rq, reach L Rq Rs lstep panics prog nclients cap l0 s0 -> panics (lim _ _ s0) rq = false) ->
  alive _ _ s = true.
Proof. exact actor_survives. Qed.
Print Assumptions C11_actor_survives_generic.

(* with the library limiter over any built-in store: for ANY programs of requests with i64
   limits/quantities, any keys and timestamps 1970..2200 in any order, any number of clients, any
   queue capacity and every interleaving, the actor is alive in every reachable state *)
Theorem C11_no_poison_request :
  forall (K : Type) (keqb : K -> K -> bool), (forall a b, reflect (a = b) (keqb a b)) ->
  forall (rate : Z -> Z -> Z), (forall c p, 0 <= rate c p) ->
  forall (prog : nat -> list (areq K)) (nclients cap : nat) (l0 : store K),
  uniq (sdata K l0) -> (forall i r, In r (prog i) -> req_ok K r) ->
  forall s, reach (store K) (areq K) Limiter.outcome (lib_step K keqb rate) (lib_panics K keqb rate) prog nclients cap l0 s ->
  alive _ _ s = true.
Proof. exact lib_actor_survives. Qed.
Print Assumptions C11_no_poison_request.

(* and every answer delivered is a documented outcome (never Panic, never the internal error),
   equal to the sequential limiter's answer (C09_linearizable) *)
Theorem C11_answers_documented :
  forall (K : Type) (keqb : K -> K -> bool), (forall a b, reflect (a = b) (keqb a b)) ->
  forall (rate : Z -> Z -> Z), (forall c p, 0 <= rate c p) ->
  forall (prog : nat -> list (areq K)) (nclients cap : nat) (l0 : store K),
  uniq (sdata K l0) -> (forall i r, In r (prog i) -> req_ok K r) ->
  forall s k (r : Limiter.outcome),
  reach (store K) (areq K) Limiter.outcome (lib_step K keqb rate) (lib_panics K keqb rate) prog nclients cap l0 s ->
  slots _ _ s k = SFilled _ r -> r <> Panic /\ r <> ErrInternal.
Proof. exact lib_answers_documented. Qed.
Print Assumptions C11_answers_documented.

(* protocol level: a malformed frame, the buffer cap or QUIT end only that connection's loop; a
   closed connection decodes nothing more (so nothing more reaches the limiter from it) *)
Theorem C11_closed_connection_is_inert :
  forall (isq : value -> bool) (cn : conn) (chunk : bytes),
  c_end cn <> Open -> conn_feed isq cn chunk = ([], cn).
Proof. intros isq cn chunk H. unfold conn_feed. destruct (c_end cn); [contradiction|reflexivity|reflexivity|reflexivity]. Qed.
Print Assumptions C11_closed_connection_is_inert.
