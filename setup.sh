#!/bin/sh
# Run once in /verif after a fresh restore, offline: builds the Coq development and the harness.
set -e
cd "$(dirname "$0")"
export CARGO_NET_OFFLINE=true
python3 tools/extract_consts.py
python3 tools/extract_limiter.py
python3 tools/extract_stores.py
( cd coq && coq_makefile -f _CoqProject -o Makefile && timeout 3000 make -j16 >/dev/null )
mkdir -p .cache
for crate in lib srv; do
  if [ -d harness/$crate ]; then
    [ -f harness/$crate/Cargo.lock ] || cp /repo/Cargo.lock harness/$crate/Cargo.lock
    ( cd harness/$crate && CARGO_TARGET_DIR=/verif/.cache/target RUSTFLAGS="--cfg throttlecrab_verif" cargo build --offline --release --bins )
    if [ "$crate" = lib ]; then
      ( cd harness/$crate && CARGO_TARGET_DIR=/verif/.cache/target RUSTFLAGS="--cfg throttlecrab_verif" cargo build --offline --bins )
    else
      ( cd harness/$crate && CARGO_TARGET_DIR=/verif/.cache/target RUSTFLAGS="--cfg throttlecrab_verif" cargo build --offline --bin actor )
    fi
  fi
done
# the real server binary (C09, C11, C12)
( cd /repo && CARGO_TARGET_DIR=/verif/.cache/target-server RUSTFLAGS="--cfg throttlecrab_verif" cargo build --offline --release -p throttlecrab-server --bin throttlecrab-server )
echo setup done
